HOOK_COMMITS = []

CODEC_NOTE = ("Trusted: Lean kernel + axioms propext/Classical.choice/Quot.sound; tools/extract.py; the differential harness. "
              "Modelled rather than verified: HashMap/HashSet as lists in wire order, BytesMut as byte lists, floats as bit patterns, "
              "String::from_utf8 as the model's validUtf8, integer arithmetic on unbounded Nat/Int with explicit range hypotheses.")

CLAIMS = {
    "C01": {
        "text": "Machine-checked proof (Lean 4) over the executable codec model: round trip for both container encodings for every "
                "well-formed value of depth <= 32 (roundtrip, roundtrip_prefix), rejection with the nesting error by serialization and by "
                "deserialization for every deeper value (too_deep_ser, too_deep_de), serialization fails only for that reason, and the decoder "
                "never exhausts its recursion budget on any input (decode_terminates). Kind bytes, key tables and the depth limit are "
                "regenerated from the Rust source on every run; the model is tied to the code by differential runs of the real serializer/"
                "deserializer against the compiled model (both epochs, depths 1..40, every nesting kind, varint boundaries).",
        "note": CODEC_NOTE + " Real stack usage and allocation of the Rust code are not modelled.",
        "design_ref": "DESIGN.md section 6 C01, section 5 M1/M2",
    },
}

CLAIMS["C07"] = {
    "text": "Machine-checked proof (Lean 4) over the executable model, for ALL byte strings: whenever decoding succeeds, skipping succeeds "
            "and stops at exactly the same byte (skip_of_decode, len_eq); skipping succeeds exactly when decoding without UTF-8 validation "
            "does (skip_iff_decode_no_utf8), nesting errors coincide (skip_tooDeep_iff); decode/skip/kind never exhaust their recursion budget "
            "on any input (decode_total, skip_total, kind_total); a decoded value is never larger than the bytes it came from (decode_size). "
            "The skip widths/modes of Deserializer::skip and KeyTagImpl::skip are regenerated from the source on every run and are proof "
            "obligations (key_skip_table, skipKey_restOf). Tie: differential runs of decode / len / kind / opaque split of the real code "
            "against the compiled model on valid encodings, mutants, truncations and random bytes.",
    "note": CODEC_NOTE + " Absence of panics, out-of-bounds reads and the actual allocation behaviour of the Rust code are observed by the "
            "harness (catch_unwind on every case), not proved: partial on that clause.",
    "design_ref": "DESIGN.md section 6 C07",
}
CLAIMS["C13"] = {
    "text": "Machine-checked proof (Lean 4): the converter equals 'decode without UTF-8 validation, then write the legacy encoding' "
            "(conv_dec_all, convert_is_reencode); hence converting a well-formed value to a pre-1.20 version succeeds and the result decodes "
            "to the same value both with the current decoder and with a decoder to which kinds 43..65 do not exist (convert_preserves), "
            "same-or-newer epoch is the identity (convert_same_or_newer), conversion is idempotent (convert_idem), fails only for bad "
            "versions / undecodable input (convert_fails_only_if, convert_bad_version) and never exhausts its budget (convert_total). The epoch "
            "table is regenerated from convert_value.rs (epoch_table). Tie: SerializedValueSlice::convert of the real code vs. the model over "
            "9 from/to versions on valid encodings of both epochs, mutants and random bytes.",
    "note": CODEC_NOTE + " Hypothesis bs.length <= u32::MAX mirrors the Overflow branch of the code (element count >= 2^32).",
    "design_ref": "DESIGN.md section 6 C13",
}

CLAIMS["C08"] = {
    "text": "Translation + machine-checked proof (Lean 4). tools/extract_msg.py translates, on every run, each of the 63 "
            "serialize_message bodies into its set of wire paths and each deserialize_message body into a decision tree; Lean then proves "
            "(by kernel evaluation over the generated tables) that for every kind the two describe the same set of layouts (ser_de_agree), "
            "that the kind table is 0..62 without gaps and matches the dispatcher (kind_table, tables_ok), and — generically for any such "
            "tree — the frame round trip with correct length prefix and identical payload (msg_roundtrip), strict acceptance (msg_strict: "
            "length >= 5, prefix = length, known kind, fields follow the layout, nothing left over) and that whatever is accepted "
            "re-serialises to a frame that parses to the same message (msg_reserialize). Tie for the frame header logic and the varint/uuid "
            "readers: differential runs of Message::deserialize_message/serialize_message against the compiled model.",
    "note": "Trusted: Lean kernel (+propext, Classical.choice, Quot.sound), the translator (a mini-parser for the straight-line Rust subset used "
            "by the message bodies; anything it does not understand is a hard error), the differential harness. No-panic of the Rust parser "
            "is observed (catch_unwind), not proved.",
    "design_ref": "DESIGN.md section 6 C08",
    "technique": "source-to-Lean translation of the 63 message layouts + Lean 4 proofs + differential correspondence",
}

CLAIMS["C14"] = {
    "text": "Machine-checked proof (Lean 4) over executable models of Packetizer and of TokioTransport against a scripted I/O object: for "
            "every list of length-prefixed frames and EVERY sequence of extend / fill / next_message operations the frames handed out are "
            "exactly a prefix of the original frames, in order, none early or twice, and buffered + unfed bytes are exactly the remaining "
            "frames (packetizer_prefix); once everything is fed, draining yields exactly the original frames (packetizer_chunking); the "
            "slice offered for filling is never empty (spare_slice_nonempty — the shape of that code is read from the source); for every "
            "script of write results written ++ buffered = frames sent (transport_send_conserves), a flush succeeds only with everything "
            "written (flush_done), zero-length writes and end-of-stream are errors (write_zero_is_error, eof_is_error), and every "
            "receive_poll is a packetizer run on the pending input, so received frames are the input stream's frames once and in order "
            "(transport_recv). Tie: the real Packetizer and the real TokioTransport (over a scripted AsyncRead+AsyncWrite mock) vs. the "
            "compiled model, plus implementation-only oracles.",
    "note": "Trusted: Lean kernel (+propext, Classical.choice, Quot.sound), tools/extract.py, the harness. Partial on real I/O: waker "
            "registration, real sockets and the tokio reactor are outside the model (the I/O object is a script of poll results).",
    "design_ref": "DESIGN.md section 6 C14",
}

NOT_APPLICABLE = {}
