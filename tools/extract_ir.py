#!/usr/bin/env python3
"""
Translator for the introspection IR (property C20): reads the `Serialize` impls of
core/src/introspection/ir/*.rs and of the `Compute` record in type_id.rs and writes
lean/Aldrin/Generated/Ir.lean: per IR record the fields that go on the wire (id, Rust field, tag,
only-if-some), per IR record the fields that are *declared* (so that "doc is declared but not
serialized" is a checked fact, not an assumption), the variant tables of `LayoutIr` and
`BuiltInTypeIr`, the five namespaces and the introspection version.

Anything that does not have the expected straight-line shape is a hard error (ExtractError).
"""
import os
import re


class ExtractError(Exception):
    pass


def read(repo, rel):
    with open(os.path.join(repo, rel), encoding="utf-8") as f:
        return f.read()


def strip_comments(src):
    src = re.sub(r"/\*.*?\*/", "", src, flags=re.S)
    return re.sub(r"//[^\n]*", "", src)


def camel_to_snake(s):
    return re.sub(r"(?<!^)(?=[A-Z])", "_", s).lower()


RECORD_FILES = ["field", "variant", "enum_ty", "newtype", "struct_ty", "struct_fallback", "enum_fallback", "service",
                "function", "event", "function_fallback", "event_fallback", "array_type", "map_type", "result_type"]


def balanced(src, start, open_ch="{", close_ch="}"):
    depth = 0
    i = start
    while i < len(src):
        if src[i] == open_ch:
            depth += 1
        elif src[i] == close_ch:
            depth -= 1
            if depth == 0:
                return i
        i += 1
    raise ExtractError("unbalanced braces")


def tag_kind(tag, where):
    tag = re.sub(r"\s+", "", tag)
    table = {"tags::U32": "u32", "tags::String": "string", "tags::Bool": "bool", "LexicalId": "lex", "ServiceUuid": "uuid",
             "tags::Option<LexicalId>": "opt:lex"}
    if tag in table:
        return table[tag]
    m = re.fullmatch(r"tags::Map<tags::U32,(\w+)>", tag)
    if m:
        return "map:" + m.group(1)
    m = re.fullmatch(r"tags::Option<(\w+Ir)>", tag)
    if m:
        return "opt:" + m.group(1)
    m = re.fullmatch(r"(\w+Ir)", tag)
    if m:
        return "rec:" + m.group(1)
    raise ExtractError(f"{where}: unknown tag `{tag}`")


def parse_record(repo, stem):
    rel = f"core/src/introspection/ir/{stem}.rs"
    src = strip_comments(read(repo, rel))
    m = re.search(r"pub struct (\w+Ir)\s*\{", src)
    if not m:
        raise ExtractError(f"{rel}: record struct not found")
    name = m.group(1)
    end = balanced(src, m.end() - 1)
    declared = re.findall(r"pub\(crate\)\s+(\w+)\s*:", src[m.end():end])
    if not declared:
        raise ExtractError(f"{rel}: no declared fields")
    # the repr(u32) enum with the field ids
    m = re.search(r"#\[repr\(u32\)\]\s*enum (\w+)\s*\{", src)
    if not m:
        raise ExtractError(f"{rel}: field id enum not found")
    enum_name = m.group(1)
    eend = balanced(src, m.end() - 1)
    ids = {k: int(v) for k, v in re.findall(r"(\w+)\s*=\s*(\d+)\s*,", src[m.end():eend])}
    # the Serialize impl
    m = re.search(r"impl Serialize<" + name + r"> for &" + name + r"\s*\{", src)
    if not m:
        raise ExtractError(f"{rel}: Serialize impl not found")
    iend = balanced(src, m.end() - 1)
    body = src[m.end():iend]
    if not re.search(r"let mut serializer = serializer\.serialize_struct2\(\)\?;", body):
        raise ExtractError(f"{rel}: does not start with serialize_struct2()")
    if not re.search(r"serializer\.finish\(\)\s*\}", body):
        raise ExtractError(f"{rel}: does not end with serializer.finish()")
    fields = []
    calls = re.findall(r"serializer\s*\.\s*(serialize|serialize_if_some)::<(.*?)>\(\s*" + enum_name + r"::(\w+)\s*,\s*&self\.(\w+)\s*,?\s*\)\?;",
                       body, flags=re.S)
    n_calls = len(re.findall(r"\.\s*serialize(?:_if_some)?::<", body))
    if n_calls != len(calls):
        raise ExtractError(f"{rel}: {n_calls} serialize calls, {len(calls)} understood")
    for fn, tag, variant, field in calls:
        if variant not in ids:
            raise ExtractError(f"{rel}: field id {variant} unknown")
        if field not in declared:
            raise ExtractError(f"{rel}: serializes undeclared field {field}")
        fields.append((ids[variant], field, tag_kind(tag, rel), fn == "serialize_if_some"))
    if len({f[0] for f in fields}) != len(fields):
        raise ExtractError(f"{rel}: duplicate field ids")
    return name, declared, fields


def parse_variants(src, enum_name, rel):
    m = re.search(r"#\[repr\(u32\)\]\s*enum " + enum_name + r"\s*\{", src)
    if not m:
        raise ExtractError(f"{rel}: {enum_name} not found")
    end = balanced(src, m.end() - 1)
    return {k: int(v) for k, v in re.findall(r"(\w+)\s*=\s*(\d+)\s*,", src[m.end():end])}


def lean_str(s):
    return '"' + s + '"'


def uuid_bytes(u):
    h = u.replace("-", "")
    if len(h) != 32:
        raise ExtractError(f"bad uuid {u}")
    return "[" + ", ".join(str(int(h[i:i + 2], 16)) for i in range(0, 32, 2)) + "]"


def gen_ir(repo):
    out = ["/- GENERATED by tools/extract.py (extract_ir.py) from /repo -- do not edit; regenerated on every check. -/",
           "/- introspection IR: which fields of which record go on the wire, variant tables, namespaces -/",
           "namespace Aldrin.Generated", ""]
    recs = []
    for stem in RECORD_FILES:
        recs.append(parse_record(repo, stem))
    out.append("/-- per IR record: (field id, Rust field name, tag, only-if-some), in the order they are written -/")
    out.append("def irRecs : List (String × List (Nat × String × String × Bool)) := [")
    out.append(",\n".join(
        "  (" + lean_str(n) + ", [" + ", ".join(f"({i}, {lean_str(f)}, {lean_str(t)}, {'true' if s else 'false'})" for i, f, t, s in fs) + "])"
        for n, _, fs in recs))
    out.append("]")
    out.append("")
    out.append("/-- per IR record: all declared fields -/")
    out.append("def irDeclared : List (String × List String) := [")
    out.append(",\n".join("  (" + lean_str(n) + ", [" + ", ".join(lean_str(d) for d in ds) + "])" for n, ds, _ in recs))
    out.append("]")
    out.append("")

    # LayoutIr
    rel = "core/src/introspection/ir/layout.rs"
    src = strip_comments(read(repo, rel))
    lv = parse_variants(src, "LayoutVariant", rel)
    arms = re.findall(r"LayoutIr::(\w+)\(ty\)\s*=>\s*\{?\s*serializer\.serialize_enum::<(\w+)>\(LayoutVariant::(\w+),\s*ty\)", src)
    if len(arms) != len(lv) or any(a[0] != a[2] for a in arms):
        raise ExtractError(f"{rel}: LayoutIr serialize arms not understood")
    ns_arms = dict(re.findall(r"Self::(\w+)\(_\)\s*=>\s*(\w+)::NAMESPACE", src))
    if set(ns_arms) != set(lv):
        raise ExtractError(f"{rel}: namespace() arms not understood")
    out.append("/-- `LayoutIr`: (variant id, variant name, payload type) -/")
    out.append("def irLayoutVariants : List (Nat × String × String) := [" +
               ", ".join(f"({lv[a[0]]}, {lean_str(a[0])}, {lean_str(a[1])})" for a in arms) + "]")
    # namespaces
    ns = {}
    for variant, ty in ns_arms.items():
        stem = {"BuiltInTypeIr": "built_in_type", "StructIr": "struct_ty", "EnumIr": "enum_ty", "ServiceIr": "service",
                "NewtypeIr": "newtype"}.get(ty)
        if stem is None:
            raise ExtractError(f"{rel}: unknown namespace owner {ty}")
        s2 = strip_comments(read(repo, f"core/src/introspection/ir/{stem}.rs"))
        m = re.search(r"pub const NAMESPACE: Uuid = uuid!\(\"([0-9a-fA-F-]+)\"\);", s2)
        if not m:
            raise ExtractError(f"{stem}.rs: NAMESPACE not found")
        ns[variant] = m.group(1)
    out.append("/-- `LayoutIr::namespace()` -/")
    out.append("def irNamespaces : List (String × List UInt8) := [" +
               ", ".join(f"({lean_str(k)}, {uuid_bytes(v)})" for k, v in ns.items()) + "]")
    out.append("")

    # BuiltInTypeIr
    rel = "core/src/introspection/ir/built_in_type.rs"
    src = strip_comments(read(repo, rel))
    bv = parse_variants(src, "BuiltInTypeVariant", rel)
    m = re.search(r"impl Serialize<BuiltInTypeIr> for &BuiltInTypeIr\s*\{", src)
    if not m:
        raise ExtractError(f"{rel}: Serialize impl not found")
    body = src[m.end():balanced(src, m.end() - 1)]
    units = re.findall(r"BuiltInTypeIr::(\w+)\s*=>\s*\{?\s*serializer\.serialize_unit_enum\(BuiltInTypeVariant::(\w+)\)", body)
    pays = re.findall(r"BuiltInTypeIr::(\w+)\(t\)\s*=>\s*\{?\s*serializer\.serialize_enum::<(\w+)>\(BuiltInTypeVariant::(\w+),\s*t\)", body)
    if len(units) + len(pays) != len(bv) or any(a != b for a, b in units) or any(a[0] != a[2] for a in pays):
        raise ExtractError(f"{rel}: BuiltInTypeIr serialize arms not understood ({len(units)}+{len(pays)} of {len(bv)})")
    rows = [(bv[a], a, "") for a, _ in units] + [(bv[a[0]], a[0], "lex" if a[1] == "LexicalId" else a[1]) for a in pays]
    rows.sort()
    out.append("/-- `BuiltInTypeIr`: (variant id, name, payload: \"\" = unit, \"lex\" = a lexical id, else a record) -/")
    out.append("def irBuiltInVariants : List (Nat × String × String) := [" +
               ", ".join(f"({i}, {lean_str(n)}, {lean_str(p)})" for i, n, p in rows) + "]")
    out.append("")

    # version + Compute
    src = strip_comments(read(repo, "core/src/introspection.rs"))
    m = re.search(r"pub const VERSION: u32 = (\d+);", src)
    if not m:
        raise ExtractError("introspection.rs: VERSION not found")
    out.append(f"def irVersion : Nat := {m.group(1)}")
    rel = "core/src/introspection/type_id.rs"
    src = re.sub(r"\s+", " ", strip_comments(read(repo, rel)))
    want = [
        "let mut serializer = serializer.serialize_struct1(3)?;",
        "serializer.serialize::<tags::U32>(ComputeField::Version, VERSION)?;",
        "serializer.serialize::<tags::Value>(ComputeField::Layout, &self.layout)?;",
        "serializer.serialize::<tags::Vec<tags::Value>>( ComputeField::Referenced, IterAsVec(&self.referenced), )?;",
        "enum ComputeField { Version = 0, Layout = 1, Referenced = 2, }",
        "referenced: BTreeSet<SerializedValue>,",
        "Self(Uuid::new_v5(&compute.namespace(), &serialized))",
        "namespace: layout.namespace(), layout: SerializedValue::serialize(layout).unwrap(), referenced: BTreeSet::new(),",
    ]
    for w in want:
        if w not in src:
            raise ExtractError(f"{rel}: expected `{w}`")
    out.append("/-- shape of `Compute` in type_id.rs: Struct1 with 3 fields (0 version, 1 layout, 2 referenced as a Vec of the ordered set) -/")
    out.append("def irComputeFields : List (Nat × String) := [(0, \"version\"), (1, \"layout\"), (2, \"referenced\")]")
    out.append("")
    out.append("end Aldrin.Generated")
    return "\n".join(out) + "\n"


if __name__ == "__main__":
    import sys
    print(gen_ir(sys.argv[1] if len(sys.argv) > 1 else "/repo"))
